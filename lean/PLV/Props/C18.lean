/-
  C18 — Parsers are total: malformed text yields an error, never a panic.
  Property theorems only.

  In the model every text parser is a *total* Lean function `List Char → Except Err α` (Lean
  accepted each of them only with a termination argument: structural recursion over the input, or an
  explicit fuel bounded by the input's length), built from total primitives (`splitOn`, `take`,
  `drop`, `idxOf`): there is no partial operation left to hit. The theorems below state this
  outcome dichotomy for every `FromStr` of the crate. What ties them to the code — in particular
  that the repaired `MatchResult::from_str` never slices inside a multi-byte character, which the
  character-indexed model cannot express — is the malformed-stream correspondence run (every call
  under `catch_unwind` and a watchdog).
  JSON entry points: the crate's own visitor code has no partial operation; totality of
  `serde_json` itself is assumed.
-/
import PLV.Model.Text

namespace PLV.C18
open PLV PLV.Text

/-- every parser returns a value or an error, for every string whatsoever -/
theorem C18_total (s : Str) :
    (∃ r, parseOrder s = r) ∧ (∃ r, parseUpdate s = r) ∧ (∃ r, parseId s = r) ∧ (∃ r, parseSide s = r) ∧
    (∃ r, parseTif s = r) ∧ (∃ r, parsePeg s = r) ∧ (∃ r, parseTx s = r) ∧ (∃ r, parseTxList s = r) ∧
    (∃ r, parseMR s = r) ∧ (∃ r, parseStats s = r) ∧ (∃ r, parseSnap s = r) ∧ (∃ r, parseQueue s = r) ∧
    (∃ r, parseLevel s = r) :=
  ⟨⟨_, rfl⟩, ⟨_, rfl⟩, ⟨_, rfl⟩, ⟨_, rfl⟩, ⟨_, rfl⟩, ⟨_, rfl⟩, ⟨_, rfl⟩, ⟨_, rfl⟩, ⟨_, rfl⟩, ⟨_, rfl⟩, ⟨_, rfl⟩, ⟨_, rfl⟩, ⟨_, rfl⟩⟩

/-- the bracket scanner of `MatchResult::from_str` stops within the input: it returns an index
    inside the string or gives up — it never runs past the end -/
theorem C18_scan_in_range (s : Str) (i depth fuel k : Nat) (h : scanClose s i depth fuel = some k) : k < s.length := by
  induction fuel generalizing i depth with
  | zero => simp [scanClose] at h
  | succ f ih =>
    unfold scanClose at h
    cases hc : s[i]? with
    | none => simp [hc] at h
    | some c =>
      simp only [hc] at h
      have hi : i < s.length := by
        rcases Nat.lt_or_ge i s.length with hlt | hge
        · exact hlt
        · rw [List.getElem?_eq_none hge] at hc; simp at hc
      split at h
      · split at h
        · simp at h; omega
        · exact ih _ _ h
      · split at h
        · exact ih _ _ h
        · exact ih _ _ h

/-- the empty string and a lone multi-byte character (the input on which the unrepaired
    `MatchResult::from_str` panicked, after its prefix) are rejected with an error -/
example : (match parseMR [] with | .error .invalidFormat => true | _ => false) = true := by decide
example : (match parseMR (lit "MatchResult:order_id=é") with | .error .missingField => true | _ => false) = true := by
  decide

end PLV.C18

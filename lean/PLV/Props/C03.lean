/-
  C03 — Quantity is conserved when threads add, match, cancel and amend concurrently.
  Property theorems only. Everything here holds for EVERY schedule (a `List Nat` of thread indices
  of any length), every number of threads and every number of operations per thread, at the
  granularity of individual atomic / map / queue operations.

  Proved: the credit invariant (each counter = sum over the map + what each thread has counted but
  not yet published / taken but not yet discounted), the ownership invariant (every order id is in
  exactly one place: the map or the hands of one thread), and their consequence at quiescence: the
  aggregates equal the sums over the resting orders, exactly, with no wrap.
  The per-order ledger (`C03_ledger`, `C03_ledger_prefix`): for every order id, at every point of
  every schedule, what rests + what threads hold + what was executed + what cancels handed back +
  discarded hidden quantity (+ amended down) = what was there + what adds supplied (+ amended up);
  at quiescence nobody holds anything. Events are counted where they happen in the model (a
  transaction is created, a cancel returns, the leftover hidden quantity is dropped); on real
  executions the same ledger is judged from the calls' return values by `C03.idOk`.
  Not exhibited by the model: weak-memory reorderings, DashMap / SegQueue internals.
-/
import PLV.Lemmas.ConcInit
import PLV.Lemmas.ConcLedger
import PLV.Lemmas.ConcSolo

namespace PLV.C03
open PLV PLV.Conc

/-- the invariant is inductive: it survives one shared-memory step of any thread -/
theorem C03_invariant_step (c : Cfg) (i : Nat) (h : CInv c) : CInv (Conc.step c i).1 := h.step i

/-- **at quiescence the aggregates equal the sums over the resting orders**: from any well-formed
    level, for any admissible program and any schedule that lets every thread return -/
theorem C03_quiescent {l : Level} (hl : l.Inv) (g : Nat) {progs : List (List COp)} (ha : ProgAdm l progs)
    (hQ : supplyQ l progs < W) (hN : supplyC l progs < W) (sched : List Nat)
    (hd : allDone (Conc.run (Cfg.init l g progs) sched) = true) :
    let c := Conc.run (Cfg.init l g progs) sched
    c.sh.vis = sumVis c.sh.map ∧ c.sh.hid = sumHid c.sh.map ∧ c.sh.cnt = c.sh.map.length ∧
      (ids c.sh.map).Nodup := by
  have hb := (init_inv hl g ha).run sched
  obtain ⟨e1, e2, e3, _, _, _⟩ := hb.exact hQ hN
  obtain ⟨z1, z2, z3⟩ := done_credits hd
  simp only
  rw [z1] at e1; rw [z2] at e2; rw [z3] at e3
  exact ⟨by omega, by omega, by omega, hb.inv.nodup⟩

/-- **ownership**: at every point of every execution every order id is in at most one place — the
    map, or the hands of exactly one thread (as the order it removed / is about to insert, or in its
    set-aside list). Hence no order is handed to two matchers, to a matcher and a canceller, or to
    two cancellers. -/
theorem C03_ownership {l : Level} (hl : l.Inv) (g : Nat) {progs : List (List COp)} (ha : ProgAdm l progs)
    (sched : List Nat) (x : Id) :
    let c := Conc.run (Cfg.init l g progs) sched
    (ids c.sh.map).count x + sumT (fun t => (theld t).count x) c.ts ≤ 1 :=
  ((init_inv hl g ha).run sched).inv.own x

/-- the stored counters are, at every point, exactly the sum over the map plus every thread's credit -/
theorem C03_credits {l : Level} (hl : l.Inv) (g : Nat) {progs : List (List COp)} (ha : ProgAdm l progs)
    (hQ : supplyQ l progs < W) (hN : supplyC l progs < W) (sched : List Nat) :
    let c := Conc.run (Cfg.init l g progs) sched
    c.sh.vis = sumVis c.sh.map + sumT (fun t => cV t.pc) c.ts ∧
    c.sh.hid = sumHid c.sh.map + sumT (fun t => cH t.pc) c.ts ∧
    c.sh.cnt = c.sh.map.length + sumT (fun t => cC t.pc) c.ts := by
  obtain ⟨e1, e2, e3, _⟩ := ((init_inv hl g ha).run sched).exact hQ hN
  exact ⟨e1, e2, e3⟩

/-- quantity the programs' adds will supply under id `x` -/
def suppliedBy (x : Id) (progs : List (List COp)) : Nat :=
  sumT (thand x) (progs.map (fun ops => ({ todo := ops } : Thread)))

/-- **the per-order ledger, for every schedule**: once all threads have returned, for every order id
    `x`: what rests under `x` + what was executed against `x` + what cancels handed back + the hidden
    quantity discarded when a non-replenishing reserve order was exhausted (+ what amends took away)
    = what the level held under `x` at the start + what the adds supplied (+ what amends added).
    Nothing is executed twice, handed to two cancellers, or lost. -/
theorem C03_ledger {l : Level} (hl : l.Inv) (g : Nat) {progs : List (List COp)} (ha : ProgAdm l progs)
    (sched : List Nat) (x : Id) (hd : allDone (Conc.run (Cfg.init l g progs) sched) = true) :
    let c := Conc.run (Cfg.init l g progs) sched
    let E := runLev x (Cfg.init l g progs) sched
    tot x c.sh.map + E.exec + E.ret + E.disc + E.down = tot x l.map + suppliedBy x progs + E.up := by
  intro c E
  have hc0 : CInv (Cfg.init l g progs) := (init_inv hl g ha).inv
  have h0 : LInv x (tot x l.map + suppliedBy x progs) (Cfg.init l g progs) {} := by
    simp [LInv, Cfg.init, Shared.ofLevel, suppliedBy]
  have h := h0.run sched hc0
  have hz := done_hand x hd
  unfold LInv at h
  simp only [LEv.plus] at h
  simp only [Nat.zero_add] at h
  show tot x c.sh.map + E.exec + E.ret + E.disc + E.down = _
  have e : sumT (thand x) c.ts = 0 := hz
  simp only [c, E] at *
  omega

/-- at every point of every schedule (not only at quiescence): the same ledger with what the threads
    currently hold of `x` outside the map, or have yet to bring -/
theorem C03_ledger_prefix {l : Level} (hl : l.Inv) (g : Nat) {progs : List (List COp)} (ha : ProgAdm l progs)
    (sched : List Nat) (x : Id) :
    let c := Conc.run (Cfg.init l g progs) sched
    let E := runLev x (Cfg.init l g progs) sched
    tot x c.sh.map + sumT (thand x) c.ts + E.exec + E.ret + E.disc + E.down = tot x l.map + suppliedBy x progs + E.up := by
  intro c E
  have hc0 : CInv (Cfg.init l g progs) := (init_inv hl g ha).inv
  have h0 : LInv x (tot x l.map + suppliedBy x progs) (Cfg.init l g progs) {} := by
    simp [LInv, Cfg.init, Shared.ofLevel, suppliedBy]
  have h := h0.run sched hc0
  unfold LInv at h
  simp only [LEv.plus, Nat.zero_add] at h
  exact h

/-! ### the interleaved model extends the sequential one

The theorems above are about the small-step machine; C01 / C02 / C07 / C15 are about the big-step
functions. These two statements say the machines agree wherever both apply, for every level, every
operation and every program — so a serial schedule of the interleaved machine *is* a sequential
history, and everything proved about histories holds of it. -/

/-- **one call, alone, is the big-step function** (`Conc.solo_eq_seq`): in any configuration, if
    thread `i` is between calls and runs its next call while nobody else moves, the shared state goes
    from level `l` to exactly `seqOp l g op` — `Level.addOrder`, `Level.matchOrder`,
    `Level.removeOrder`, `Level.amend`, a read, or a draw from the id generator — and the thread
    records exactly that call's result. -/
theorem C03_solo_eq_seq (l : Level) (g : Nat) (ts : List Thread) (i : Nat) (op : COp) (rest : List COp)
    (rets : List String) (hi : ts[i]? = some { pc := .idle, todo := op :: rest, rets := rets }) (hok : OpOk op) :
    ∃ n, Conc.run ⟨Shared.ofLevel l g, ts⟩ (List.replicate n i) =
      ⟨Shared.ofLevel (seqOp l g op).1 (seqOp l g op).2.1,
       ts.set i { pc := .idle, todo := rest, rets := rets ++ [(seqOp l g op).2.2] }⟩ :=
  solo_eq_seq l g ts i op rest rets hi hok

/-- **a serial schedule is a sequential history**: for any programs there is a schedule (thread 0 to
    completion, then thread 1, …) after which every thread has returned, the shared state is the
    level the sequential model computes for the concatenated history, and each thread has recorded
    the sequential results of its own calls. -/
theorem C03_serial (l : Level) (g : Nat) (progs : List (List COp)) (hok : ∀ ops ∈ progs, ∀ op ∈ ops, OpOk op) :
    ∃ sched, Conc.run (Cfg.init l g progs) sched =
        ⟨Shared.ofLevel (serial l g progs).1 (serial l g progs).2.1, (serial l g progs).2.2.map doneThread⟩ ∧
      allDone (Conc.run (Cfg.init l g progs) sched) = true := by
  obtain ⟨sched, e⟩ := serial_run progs l g [] hok
  refine ⟨sched, ?_, ?_⟩
  · simpa [Cfg.init] using e
  · have e' : Conc.run (Cfg.init l g progs) sched =
        ⟨Shared.ofLevel (serial l g progs).1 (serial l g progs).2.1, (serial l g progs).2.2.map doneThread⟩ := by
      simpa [Cfg.init] using e
    rw [e']; exact serial_allDone _

/-- **a quantity amendment never touches the hidden-quantity counter**: in the model the amend goes from its
    removal straight to the visible adjustment or to the re-insert — never to the hidden adjustment — because
    `withReduced` leaves the hidden quantity alone. (The judge `C03.amendScan` checks exactly this on the real
    trace: an amend that moved the hidden aggregate has created or destroyed quantity of that order.) -/
theorem C03_amend_leaves_hidden (s : Shared) (id : Id) (n : Nat) (o1 new : Order) :
    (tstep s (.am1 id n)).2.1 ≠ .cont (.amH o1 new) ∧
      (tstep s (.amV o1 (o1.withReduced n))).2.1 ≠ .cont (.amH o1 (o1.withReduced n)) := by
  constructor
  · simp only [tstep]
    cases hf : s.map.find id with
    | none => simp
    | some o =>
      have hh : o.hid = (o.withReduced n).hid := (withReduced_hid o n).symm
      simp only [hh, ne_eq, not_true_eq_false, if_false]
      split <;> simp
  · have hh : o1.hid = (o1.withReduced n).hid := (withReduced_hid o1 n).symm
    simp only [tstep, hh, ne_eq, not_true_eq_false, if_false]
    split <;> simp

/-! non-vacuity: the serial execution of the program below is computed by the sequential model -/
example : (serial ((Level.new 100).addOrder ⟨⟨false, 1⟩, 100, 10, .sell, 1, .gtc, .iceberg 5⟩) 0
    [[.amend ⟨false, 1⟩ 7], [.add ⟨⟨false, 2⟩, 100, 3, .sell, 2, .gtc, .standard⟩, .readVis]]).1.vis = 10 := by decide

/-! non-vacuity: an admissible two-thread program on a one-order level -/
example : ProgAdm ((Level.new 100).addOrder ⟨⟨false, 1⟩, 100, 10, .sell, 1, .gtc, .iceberg 5⟩)
    [[.amend ⟨false, 1⟩ 5, .add ⟨⟨false, 2⟩, 100, 3, .sell, 2, .gtc, .standard⟩], [.matchQ 4 ⟨false, 9⟩, .cancel ⟨false, 1⟩]] :=
  ⟨by decide, by intro ops hops op hop; simp at hops; rcases hops with rfl | rfl <;> simp at hop <;> rcases hop with rfl | rfl <;> simp [OpOk]⟩

end PLV.C03

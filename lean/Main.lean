import PLV.Model.Sha1
/-
  Line-protocol driver (DESIGN §2.4): reads one command per line on stdin, prints one line per
  command. Runs the executable model and evaluates the judge predicates on implementation
  observations. Links natively because nothing below it imports Mathlib.
-/
import PLV.Model.Proto
import PLV.Model.LevelFast
import PLV.Judge
import PLV.Model.Conc
import PLV.Model.TextProto
import PLV.Model.JsonProto

open PLV PLV.Proto

structure DState where
  lvl : Level := Level.new 0
  g   : Nat := 0
  q   : Q := {}
  /-- C19: the abstract FIFO run alongside, its answer to the last queue op, and whether a push
      has re-used an id that still had a ticket since the last resynchronisation -/
  -- E-conc: the threads' programs; what the last run started from; lookup marks per step
  cprog : List (List Conc.COp) := []
  lastProg : List (List Conc.COp) := []
  lastPre : List Order := []
  lastG : Nat := 0
  lastMarks : List (Option (Bool × Id)) := []
  -- C11: a level restored from a snapshot of `lvl`, fed the same continuation
  fork : Option (Level × Nat) := none
  lastForkMakers : String := ""
  -- C04: makers of the model's last match; pending deviations from the property's order
  lastMakers : String := ""
  c04F1 : Bool := false
  c04F2 : Bool := false
  fifo    : Fifo := []
  specOut : String := ""
  stale   : Bool := false

def bad (s : DState) (line : String) : DState × String := (s, "bad-op " ++ line.trimAscii.toString)

def parseUpdate : List String → Option Update
  | ["price", id, p] => do some (.price (← parseId id) (← p.toNat?))
  | ["qty", id, n] => do some (.quantity (← parseId id) (← n.toNat?))
  | ["pq", id, p, n] => do some (.priceQty (← parseId id) (← p.toNat?) (← n.toNat?))
  | ["cancel", id] => do some (.cancel (← parseId id))
  | ["replace", id, p, n, sd] => do some (.replace (← parseId id) (← p.toNat?) (← n.toNat?) (← parseSide sd))
  | _ => none

/- the level's orders in the listing order the implementation used (ids); admissible only if it
    names every resting order exactly once and is sorted by timestamp -/
def arrange (l : Level) (ids : String) : Option (List Order) :=
  match parseList parseId ids with
  | none => none
  | some idl =>
    match idl.mapM (fun id => l.map.find id) with
    | none => none
    | some os =>
      let sorted := (os.zip (os.drop 1)).all (fun (p : Order × Order) => p.1.ts ≤ p.2.ts)
      let once := idl.all (fun i => (idl.filter (· == i)).length == 1)
      if sorted && once && os.length == l.map.length then some os else none

def parseCOp (s : String) : Option Conc.COp :=
  match s.splitOn "~" with
  | ["add", o] => (parseOrder o).map Conc.COp.add
  | ["match", q, t] => do some (.matchQ (← q.toNat?) (← parseId t))
  | ["cancel", id] => (parseId id).map Conc.COp.cancel
  | ["amend", id, n] => do some (.amend (← parseId id) (← n.toNat?))
  -- the other update kinds run the same code paths: a price different from the level's removes the order exactly as a
  -- cancel does (UpdatePrice, UpdatePriceAndQuantity, Replace), the level's own price amends the quantity
  | ["mv.price", id, _] => (parseId id).map Conc.COp.cancel
  | ["mv.pq", id, _, _] => (parseId id).map Conc.COp.cancel
  | ["mv.replace", id, _, _, _] => (parseId id).map Conc.COp.cancel
  | ["same.pq", id, n] => do some (.amend (← parseId id) (← n.toNat?))
  | ["same.replace", id, n, _] => do some (.amend (← parseId id) (← n.toNat?))
  | ["read", "vis"] => some .readVis
  | ["read", "hid"] => some .readHid
  | ["read", "cnt"] => some .readCnt
  | ["read", "list"] => some .readList
  | ["next"] => some .next
  | _ => none

/- runs the small-step model under the given schedule, collecting events and the aggregates a
    reader would see after every step -/
/- the pc a thread is about to execute (resolving `idle` to the start of its next op) -/
def nextPc (t : Conc.Thread) : Conc.Pc :=
  match t.pc, t.todo with
  | .idle, op :: _ => Conc.start op
  | pc, _ => pc

/- for the C13 judge: is this step the lookup of a cancel / amend (`false`, id), or a cancel's
    successful take (`true`, id)? -/
def markOf (c : Conc.Cfg) (i : Nat) : Option (Bool × Id) :=
  match c.ts[i]? with
  | none => none
  | some t =>
    match nextPc t with
    | .can0 id => if (c.sh.map.find id).isSome then some (true, id) else some (false, id)
    | .am0 id _ => if (c.sh.map.find id).isSome then none else some (false, id)
    | .am1 id _ => if (c.sh.map.find id).isSome then none else some (false, id)
    | _ => none

def concRun (c : Conc.Cfg) (sched : List Nat) : Conc.Cfg × List String × List String × List (Option (Bool × Id)) :=
  let obs (c : Conc.Cfg) := toString c.sh.vis ++ "/" ++ toString c.sh.hid ++ "/" ++ toString c.sh.cnt
  sched.foldl (fun (acc : Conc.Cfg × List String × List String × List (Option (Bool × Id))) i =>
    let (c', e) := Conc.step acc.1 i
    (c', acc.2.1 ++ [e.getD ("t" ++ toString i ++ ":no-step")], acc.2.2.1 ++ [obs c'], acc.2.2.2 ++ [markOf acc.1 i]))
    (c, [], [obs c], [])

def parseEv (s : String) : Option Ev :=
  match s.splitOn ":" with
  | t :: oo :: rest =>
    let parts := oo.splitOn "."
    match (t.drop 1).toString.toNat?, parts.getLast? with
    | some tn, some op => some ⟨tn, joinWith "." parts.dropLast, op, joinWith ":" rest⟩
    | _, _ => none
  | _ => none

def parseTrace (s : String) : Option (List Ev) :=
  if s.isEmpty then some [] else (s.splitOn ";").mapM parseEv

/- per-thread return strings: `t0:r&r#t1:r` -/
def parseRets (s : String) : List (List String) :=
  (s.splitOn "#").map (fun t => match t.splitOn ":" with
    | _ :: rest => let body := joinWith ":" rest; if body.isEmpty then [] else body.splitOn "&"
    | [] => [])

/- transactions of a match result rendered with `~` separators -/
def txsOfRet (r : String) : List Tx :=
  match (r.splitOn "~").head? with
  | some f => if f.startsWith "txs=" then (parseList parseTx (f.drop 4).toString).getD [] else []
  | none => []

def showMA (r : MatchOut) : String :=
  "c=" ++ toString r.consumed ++ " u=" ++ showOptOrder r.updated ++ " hr=" ++ toString r.hiddenRed ++
    " rem=" ++ toString r.remaining

def step (s : DState) (line : String) : DState × String :=
  match line.trimAscii.toString.splitOn " " with
  | ["case", n] => (s, "case " ++ n)
  | ["ma", o, q] =>
    match parseOrder o, q.toNat? with
    | some o, some q => (s, "ma " ++ showMA (matchAgainst o q))
    | _, _ => bad s line
  | ["wr", o, n] =>
    match parseOrder o, n.toNat? with
    | some o, some n => (s, "wr " ++ showOrder (o.withReduced n))
    | _, _ => bad s line
  | ["ri", o, n] =>
    match parseOrder o, n.toNat? with
    | some o, some n => let r := o.refresh n; (s, "ri " ++ showOrder r.1 ++ " used=" ++ toString r.2)
    | _, _ => bad s line
  | ["judge.C05r", o, n, r, used] =>
    match parseOrder o, n.toNat?, parseOrder r, used.toNat? with
    | some o, some n, some r, some used =>
      (s, if C05.refreshOk o n r used then "J C05 ok" else "J C05 bad refresh-rule")
    | _, _, _, _ => bad s line
  | ["tf", o, now, close] =>
    match parseOrder o, now.toNat?, (if close == "-" then some none else close.toNat?.map some) with
    | some o, some now, some close =>
      (s, "tf imm=" ++ toString o.isImmediate ++ " fok=" ++ toString o.isFok ++ " po=" ++ toString o.isPostOnly ++
        " hasexp=" ++ toString o.tif.hasExpiry ++ " exp=" ++ toString (o.tif.isExpired now close))
    | _, _, _ => bad s line
  | ["judge.C05", o, q, c, u, hr, rem] =>
    match parseOrder o, q.toNat?, c.toNat?, parseOptOrder u, hr.toNat?, rem.toNat? with
    | some o, some q, some c, some u, some hr, some rem =>
      let r : MatchOut := ⟨c, u, hr, rem⟩
      (s, if C05.ok o q r && C05.conserves o q r then "J C05 ok" else "J C05 bad rule")
    | _, _, _, _, _, _ => bad s line
  | ["judge.C01", v, h, c, l] =>
    match v.toNat?, h.toNat?, c.toNat?, parseList parseOrder l with
    | some v, some h, some c, some l => (s, if C01.ok v h c l then "J C01 ok" else "J C01 bad aggregates-differ-from-listing")
    | _, _, _, _ => bad s line
  | ["judge.C02", q, taker, price, gprev, txs, rem, complete, filled, pre, post] =>
    match q.toNat?, parseId taker, price.toNat?, gprev.toNat?, parseList parseTx txs, rem.toNat?,
        parseBool complete, parseList parseId filled, parseList parseOrder pre, parseList parseOrder post with
    | some q, some taker, some price, some gprev, some txs, some rem, some complete, some filled, some pre, some post =>
      let o : MatchObs := ⟨q, taker, price, gprev, ⟨taker, txs, rem, complete, filled⟩, pre, post⟩
      (s, if C02.ok o then "J C02 ok" else "J C02 bad accounting")
    | _, _, _, _, _, _, _, _, _, _ => bad s line
  | ["judge.C06", q, txs, rem, pre, post] =>
    match q.toNat?, parseList parseTx txs, rem.toNat?, parseList parseOrder pre, parseList parseOrder post with
    | some q, some txs, some rem, some pre, some post =>
      (s, if C06.ok q ⟨⟨false, 0⟩, txs, rem, rem == 0, []⟩ pre post then "J C06 ok" else "J C06 bad displayed-liquidity-not-exhausted")
    | _, _, _, _, _ => bad s line
  | "judge.C07" :: price :: pre :: post :: out :: upd =>
    let outv : Option UpdOut :=
      if out == "err=SamePrice" then some .errSamePrice
      else if out.startsWith "ok=" then (parseOptOrder (out.drop 3).toString).map UpdOut.ok
      else none
    match price.toNat?, parseList parseOrder pre, parseList parseOrder post, outv, parseUpdate upd with
    | some price, some pre, some post, some out, some u =>
      (s, if C07.ok price u out pre post then "J C07 ok" else "J C07 bad update-semantics")
    | _, _, _, _, _ => bad s line
  | ["judge.C15", price, st, na, nr, se] =>
    match price.toNat?, (st.splitOn ",").mapM String.toNat?, na.toNat?, nr.toNat?, se.toNat? with
    | some price, some [a, r, e, q, v], some na, some nr, some se =>
      (s, if C15.ok price ⟨a, r, e, q, v⟩ na nr se then "J C15 ok" else "J C15 bad statistics-differ-from-events")
    | _, _, _, _, _ => bad s line
  | "atx" :: q :: qs =>
    match q.toNat?, qs.mapM String.toNat? with
    | some q, some qs =>
      let (_, outs) := qs.foldl (fun (acc : MatchResult × List String) n =>
        let r := acc.1.addTx ⟨0, ⟨false, 0⟩, ⟨false, 0⟩, 0, n, .buy⟩
        (r, acc.2 ++ [toString r.remaining ++ ":" ++ showBool r.complete])) (MatchResult.new ⟨false, 0⟩ q, [])
      (s, "atx " ++ joinWith " " outs)
    | _, _ => bad s line
  | ["new", p] =>
    match p.toNat? with
    | some p => ({ s with lvl := Level.new p, g := 0, c04F1 := false, c04F2 := false, lastMakers := "", fork := none }, "new")
    | none => bad s line
  | "newgen" :: c :: _ =>
    -- the namespace (optional third token) does not enter the model: ids are compared as counters
    match c.toNat? with
    | some c => ({ s with g := c }, "newgen")
    | none => bad s line
  | ["add", o] =>
    match parseOrder o with
    | some o =>
      -- joining at the back fails when the id still has a (stale) ticket in the queue
      ({ s with lvl := s.lvl.addOrder o, c04F2 := s.c04F2 || s.lvl.tickets.contains o.id,
                fork := s.fork.map (fun (f : Level × Nat) => (f.1.addOrder o, f.2)) }, "add ret=" ++ showOrder o)
    | none => bad s line
  | ["match", q, taker] =>
    match q.toNat?, parseId taker with
    | some q, some t =>
      let (l, r, g) := s.lvl.matchOrder q t s.g
      let before := liveOrder s.lvl.map s.lvl.tickets
      let after := liveOrder l.map l.tickets
      let dev := !(C04.matchOrderOk before after)
      -- a deviation is due to a leftover ticket when some surviving id had more than one ticket
      let dup := (after.map (·.id)).any (fun i => (s.lvl.tickets.filter (· == i)).length > 1)
      let fk := s.fork.map (fun (f : Level × Nat) => f.1.matchOrder q t f.2)
      ({ s with lvl := l, g := g, lastMakers := showList (fun (t : Tx) => showId t.maker ++ ":" ++ toString t.qty) r.txs,
                fork := fk.map (fun x => (x.1, x.2.2)),
                lastForkMakers := match fk with
                  | some x => showList (fun (t : Tx) => showId t.maker ++ ":" ++ toString t.qty) x.2.1.txs
                  | none => "",
                c04F1 := s.c04F1 || (dev && !dup), c04F2 := s.c04F2 || (dev && dup) },
       -- the accessors of the result: `executed_quantity`, `executed_value`; `acc` = the harness's own cross-check of
       -- `Transaction::maker_side / total_value` and `MatchResult::average_price` against the fields
       "match " ++ showMatch r ++ " exq=" ++ toString r.executed ++ " exv=" ++ toString r.executedValue ++ " acc=ok")
    | _, _ => bad s line
  | "upd" :: rest =>
    match parseUpdate rest with
    | some u =>
      let (l, out) := s.lvl.update u
      ({ s with lvl := l, fork := s.fork.map (fun (f : Level × Nat) => ((f.1.update u).1, f.2)) }, "upd " ++ showUpd out)
    | none => bad s line
  | ["qnew"] => ({ s with q := {}, fifo := [], specOut := "qnew", stale := false }, "qnew")
  | ["q.push", o] =>
    match parseOrder o with
    | some o =>
      ({ s with q := s.q.push o, fifo := s.fifo.push o, specOut := "q.push",
                stale := s.stale || s.q.tickets.contains o.id }, "q.push")
    | none => bad s line
  | ["q.fromvec", l] =>
    match parseList parseOrder l with
    | some os =>
      let q := Q.fromVec os
      ({ s with q := q, fifo := liveOrder q.map q.tickets, specOut := "q.fromvec", stale := false }, "q.fromvec")
    | none => bad s line
  | ["q.pop"] =>
    let (o, q) := s.q.pop
    let (so, f) := s.fifo.pop
    ({ s with q := q, fifo := f, specOut := "q.pop " ++ showOptOrder so }, "q.pop " ++ showOptOrder o)
  | ["q.find", id] =>
    match parseId id with
    | some id => ({ s with specOut := "q.find " ++ showOptOrder (s.fifo.find id) }, "q.find " ++ showOptOrder (s.q.find id))
    | none => bad s line
  | ["q.remove", id] =>
    match parseId id with
    | some id =>
      let (o, q) := s.q.remove id
      let (so, f) := s.fifo.remove id
      ({ s with q := q, fifo := f, specOut := "q.remove " ++ showOptOrder so }, "q.remove " ++ showOptOrder o)
    | none => bad s line
  | ["q.len"] => ({ s with specOut := "q.len " ++ toString s.fifo.length }, "q.len " ++ toString s.q.len)
  | ["q.isempty"] =>
    ({ s with specOut := "q.isempty " ++ showBool s.fifo.isEmpty }, "q.isempty " ++ showBool s.q.isEmpty)
  | ["q.rt", _] =>
    -- a queue rebuilt from this one (list, text or JSON form) holds the same orders
    ({ s with specOut := "q.rt ok " ++ showList showOrder (canonSort s.fifo) ++ " " ++ toString s.fifo.length },
     "q.rt ok " ++ showList showOrder (canonSort s.q.toVec) ++ " " ++ toString s.q.len)
  | ["q.tovec"] =>
    ({ s with specOut := "q.tovec " ++ showList showOrder (canonSort s.fifo) },
     "q.tovec " ++ showList showOrder (canonSort s.q.toVec))
  | ["conc.thread", k, ops] =>
    -- `read~snap` (one call of `PriceLevel::snapshot`: three loads and one map iteration) is the four one-step reads
    match k.toNat?, ((ops.splitOn ";").mapM (fun o =>
        if o == "read~snap" then some [Conc.COp.readVis, .readHid, .readCnt, .readList] else (parseCOp o).map (fun c => [c]))).map List.flatten with
    | some k, some ops =>
      let prog := if k < s.cprog.length then s.cprog.set k ops else s.cprog ++ [ops]
      ({ s with cprog := prog }, "conc.thread")
    | _, _ => bad s line
  | "conc.run" :: rest =>
    -- a trailing `h` tells the harness to run worker 0 on the thread that built the level and the generator;
    -- thread identity does not exist in the model
    let schedStr := joinWith " " (rest.filter (· != "h"))
    match (if schedStr.isEmpty then some [] else (schedStr.splitOn ",").mapM String.toNat?) with
    | some sched =>
      let sh : Conc.Shared := { price := s.lvl.price, vis := s.lvl.vis, hid := s.lvl.hid, cnt := s.lvl.cnt,
                                map := s.lvl.map, tickets := s.lvl.tickets, stats := s.lvl.stats, g := s.g }
      let c0 : Conc.Cfg := { sh := sh, ts := s.cprog.map (fun ops => { todo := ops }) }
      let (c, evs, obs, marks) := concRun c0 sched
      let rets := joinWith "#" ((List.range c.ts.length).zip c.ts |>.map (fun (p : Nat × Conc.Thread) =>
        "t" ++ toString p.1 ++ ":" ++ joinWith "&" p.2.rets))
      let lvl' : Level := { price := c.sh.price, vis := c.sh.vis, hid := c.sh.hid, cnt := c.sh.cnt, map := c.sh.map,
                            tickets := c.sh.tickets, stats := c.sh.stats }
      ({ s with lvl := lvl', g := c.sh.g, cprog := [], lastProg := s.cprog, lastPre := canonSort s.lvl.map, lastG := s.g,
                lastMarks := marks },
       "conc.run sched=" ++ schedStr ++ " trace=" ++ joinWith ";" evs ++ " rets=" ++ rets ++ " obs=" ++
         joinWith "," obs ++ " done=" ++ showBool (Conc.allDone c))
    | none => bad s line
  | ["judge.C03", _pre, post, rets, v, h, c] =>
    match parseList parseOrder post, v.toNat?, h.toNat?, c.toNat? with
    | some post, some v, some h, some c =>
      let rets := parseRets rets
      let ops := s.lastProg
      let pairs : List (Conc.COp × String) := (ops.zip rets).flatMap (fun (p : List Conc.COp × List String) => p.1.zip p.2)
      let supplied : List Order := s.lastPre ++ pairs.filterMap (fun p => match p.1 with | .add o => some o | _ => none)
      let amended : List Id := pairs.filterMap (fun p => match p.1 with | .amend id _ => some id | _ => none)
      let txs : List Tx := pairs.flatMap (fun p => match p.1 with | .matchQ _ _ => txsOfRet p.2 | _ => [])
      let returned (id : Id) : Nat := (pairs.filterMap (fun p => match p.1 with
        | .cancel i => if i == id && p.2.startsWith "ok=" then (parseOptOrder (p.2.drop 3).toString).join.map (fun o => o.vis + o.hid) else none
        | _ => none)).foldl (· + ·) 0
      let cancels (id : Id) : Nat := (pairs.filter (fun p => match p.1 with
        | .cancel i => i == id && p.2.startsWith "ok=" && p.2 != "ok=-" | _ => false)).length
      let allIds := ((supplied.map (·.id)) ++ txs.map (·.maker) ++ post.map (·.id)).eraseDups
      let okId (id : Id) : Bool :=
        amended.contains id ||
          (C03.idOk (lookup id supplied) (fillsOf id txs) (returned id) (restTot id post) && decide (cancels id ≤ 1))
      let bad := allIds.filter (fun id => !(okId id))
      (s, if !(C01.ok v h c post) then "J C03 bad aggregates-differ-from-resting-orders-at-quiescence"
          else if bad.isEmpty then "J C03 ok" else "J C03 bad conservation:" ++ joinWith "," (bad.map showId))
    | _, _, _, _ => bad s line
  | ["judge.C03a", tr] =>
    match parseTrace tr with
    | some evs => (s, if C03.amendScan [] evs then "J C03 ok" else "J C03 bad a-quantity-amendment-moved-the-hidden-aggregate")
    | none => bad s line
  | ["judge.C08", tr] =>
    match parseTrace tr with
    | some evs => (s, if C08.scan (s.lastPre.map (fun o => showId o.id)) evs then "J C08 ok" else "J C08 bad hand-out-discipline")
    | none => bad s line
  | ["judge.C12", obs] =>
    let ops := s.lastProg.flatten
    let adds := ops.filterMap (fun o => match o with | .add o => some o | _ => none)
    let amendSum := (ops.filterMap (fun o => match o with | .amend _ n => some n | _ => none)).foldl (· + ·) 0
    let all := s.lastPre ++ adds
    let maxTotal := sumVis all + sumHid all + amendSum
    let maxHid := sumHid all
    let maxCnt := all.length
    let parsed := (obs.splitOn ",").mapM (fun o => match o.splitOn "/" with
      | [a, b, c] => do some ((← a.toNat?), (← b.toNat?), (← c.toNat?))
      | _ => none)
    match parsed with
    | some l => (s, if C12.ok maxTotal maxHid maxCnt l then "J C12 ok" else "J C12 bad aggregate-out-of-range")
    | none => bad s line
  | ["judge.C13", tr, _rets] =>
    match parseTrace tr with
    | some evs =>
      if evs.length != s.lastMarks.length then (s, "J C13 bad trace-length-differs-from-model")
      else
        let idx := (List.range evs.length).zip (evs.zip s.lastMarks)
        let untruthful := idx.filter (fun (p : Nat × Ev × Option (Bool × Id)) => match p.2.2 with
          | some (false, id) => C13.inFlight evs p.1 p.2.1.t (showId id)
          | _ => false)
        let notFinal := idx.filter (fun (p : Nat × Ev × Option (Bool × Id)) => match p.2.2 with
          | some (true, id) => !(C13.finalAfter evs p.1 (showId id))
          | _ => false)
        let wrongNone := idx.filter (fun (p : Nat × Ev × Option (Bool × Id)) => match p.2.2 with
          | some (false, _) => p.2.1.res != "none"
          | some (true, _) => p.2.1.res != "found"
          | none => false)
        if !notFinal.isEmpty || !wrongNone.isEmpty then (s, "J C13 bad acknowledgement-contradicted")
        else if !untruthful.isEmpty then (s, "J C13 known in-flight")
        else (s, "J C13 ok")
    | none => bad s line
  | ["judge.C08d", q, txs, rem, pre, post, v, h, c] =>
    match q.toNat?, parseList parseTx txs, rem.toNat?, parseList parseOrder pre, parseList parseOrder post,
        v.toNat?, h.toNat?, c.toNat? with
    | some q, some txs, some rem, some pre, some post, some v, some h, some c =>
      (s, if !(C06.ok q ⟨⟨false, 0⟩, txs, rem, rem == 0, []⟩ pre post) then "J C08 bad resting-order-not-reachable-by-matching"
          else if !(C01.ok v h c post) then "J C08 bad aggregates-do-not-describe-what-remains"
          else "J C08 ok")
    | _, _, _, _, _, _, _, _ => bad s line
  | ["judge.C14s", g, txs] =>
    match g.toNat?, parseList parseTx txs with
    | some g, some txs =>
      let ks := txs.map (·.txid)
      (s, if ks == (List.range ks.length).map (fun k => (g + k) % W) then "J C14 ok"
          else "J C14 bad transaction-ids-are-not-the-next-counter-values")
    | _, _ => bad s line
  | ["judge.C14", tr, _rets] =>
    match parseTrace tr with
    | some evs => (s, if C14.ok s.lastG evs then "J C14 ok" else "J C14 bad counter-values-not-a-fresh-range")
    | none => bad s line
  | ["rebuild", kind, l] =>
    match arrange s.lvl l with
    | some os =>
      let lvl' := if kind == "data" || kind == "serde" || kind == "text" || kind == "lying-data" || kind == "lying-serde" || kind == "lying-text"
          || kind == "serde-value" || kind == "serde-reader" || kind == "serde-escaped"
        then Level.fromOrders s.lvl.price os
        else Level.fromSnapshot { price := s.lvl.price, vis := s.lvl.vis, hid := s.lvl.hid, cnt := s.lvl.cnt, orders := os }
      ({ s with lvl := lvl' }, "rebuild ok")
    | none => (s, "rebuild inadmissible-listing")
  | ["fork", _, l] =>
    match arrange s.lvl l with
    | some os =>
      ({ s with fork := some (Level.fromSnapshot { price := s.lvl.price, vis := s.lvl.vis, hid := s.lvl.hid,
                                                   cnt := s.lvl.cnt, orders := os }, s.g) }, "fork ok")
    | none => (s, "fork inadmissible-listing")
  | ["judge.C10err", _] => (s, "J C10 bad a-rebuild-of-the-level-from-its-own-form-failed")
  | ["judge.C10", pre, post] => (s, if pre == post then "J C10 ok" else "J C10 bad content-or-aggregates-changed")
  | ["judge.C10list", l] =>
    match parseList parseOrder l with
    | some os =>
      let sorted := (os.zip (os.drop 1)).all (fun (p : Order × Order) => p.1.ts ≤ p.2.ts)
      let once := os.all (fun o => (os.filter (fun x => x.id == o.id)).length == 1)
      (s, if sorted && once then "J C10 ok" else "J C10 bad listing-not-sorted-or-not-once")
    | none => bad s line
  | ["judge.C11", mk, fk] =>
    if mk != s.lastMakers || fk != s.lastForkMakers then
      (s, "J C11 bad makers: got " ++ mk ++ " / " ++ fk ++ " expected " ++ s.lastMakers ++ " / " ++ s.lastForkMakers)
    else if mk != fk then (s, "J C11 known restore-order")
    else (s, "J C11 ok")
  | ["judge.C04", makers] =>
    if makers != s.lastMakers then (s, "J C04 bad makers: got " ++ makers ++ " expected " ++ s.lastMakers)
    else if s.c04F1 then ({ s with c04F1 := false, c04F2 := false }, "J C04 known F1")
    else if s.c04F2 then ({ s with c04F2 := false }, "J C04 known F2")
    else (s, "J C04 ok")
  | "judge.C19" :: rest =>
    let implOut := joinWith " " rest
    if implOut == s.specOut then (s, "J C19 ok")
    else if s.stale then
      -- the known deviation: resynchronise the abstract queue with the real hand-out order
      ({ s with fifo := liveOrder s.q.map s.q.tickets, stale := false },
       "J C19 known stale-ticket")
    else (s, "J C19 bad fifo-contract: got " ++ implOut ++ " expected " ++ s.specOut)
  | ["txt.show", ty, v] =>
    match TextProto.showByType ty v with
    | some t => (s, "txt " ++ TextProto.hexOfString t)
    | none => bad s line
  | ["txt.parse", ty, h] =>
    match TextProto.stringOfHex h with
    | some t =>
      (match TextProto.parseByType ty t with
       | some o => (s, "parsed " ++ o)
       | none => bad s line)
    | none => bad s line
  | ["txt.parse", ty] =>
    (match TextProto.parseByType ty "" with
     | some o => (s, "parsed " ++ o)
     | none => bad s line)
  | "judge.C16" :: ty :: v :: out => (s, if joinWith " " out == "ok " ++ v then "J C16 ok" else "J C16 bad round-trip " ++ ty)
  | "judge.C18" :: out => (s, if out.head? == some "PANIC" || out.head? == some "TIMEOUT" then "J C18 bad parser-panicked" else "J C18 ok")
  | ["json.enc", ty, v] =>
    match JsonProto.encByType ty v with
    | some j => (s, "json " ++ TextProto.hexOfString (String.ofList (J.render j)))
    | none => bad s line
  | ["json.dec", ty, h] =>
    match TextProto.stringOfHex h with
    | some t =>
      (match J.parseJson t.toList with
       | none => (s, "jparsed err")
       | some j =>
         match JsonProto.decByType ty j with
         | some o => (s, "jparsed " ++ o)
         | none => bad s line)
    | none => bad s line
  | ["pkg.make", l] =>
    match arrange s.lvl l with
    | some os =>
      let p := J.Package.new J.sha { price := s.lvl.price, vis := s.lvl.vis, hid := s.lvl.hid, cnt := s.lvl.cnt, orders := os }
      (s, "pkg " ++ TextProto.hexOfString (String.ofList (J.render (J.encPackage p))))
    | none => (s, "pkg inadmissible-listing")
  | ["pkg.restore", h] =>
    match TextProto.stringOfHex h with
    | some t => (s, JsonProto.restoreText t)
    | none => bad s line
  | ["pkg.raw", _] => (s, "raw")
  | "judge.C10r" :: ty :: v :: out => (s, if joinWith " " out == "ok " ++ v then "J C10 ok" else "J C10 bad own-encoding-round-trip " ++ ty)
  | "judge.C17" :: ty :: v :: out => (s, if joinWith " " out == "ok " ++ v then "J C17 ok" else "J C17 bad json-round-trip " ++ ty)
  | "judge.C09" :: orig :: fhex :: out =>
    /- a restore may succeed only if the (damaged) text still is a package with the supported version
       whose checksum matches its content; what it yields must be that content, and a content other
       than the snapshotted one under an unchanged checksum is a collision -/
    (s, match out with
      | ["restored", "ok", c] =>
        (match (TextProto.stringOfHex fhex).bind (fun t => J.parseJson t.toList) with
         | none => "J C09 bad accepted-a-text-that-is-not-a-json-document"
         | some j =>
           match J.decPackage j with
           | .error _ => "J C09 bad accepted-a-document-that-is-not-a-package"
           | .ok p =>
             if p.version != formatVersion then "J C09 bad accepted-unsupported-version " ++ toString p.version
             else if J.sha (J.ser p.snapshot) != p.checksum then "J C09 bad accepted-checksum-mismatch"
             else if c != JsonProto.levelContent (Level.fromSnapshot p.snapshot) then "J C09 bad restored-content-differs-from-the-package"
             else if c != orig then "J C09 bad accepted-a-package-with-different-content"
             else "J C09 ok")
      | "restored" :: "err" :: _ => "J C09 ok"
      | _ => "J C09 bad " ++ joinWith " " out)
  -- read-only calls whose result is a serialized form: what the level's OWN text / JSON / package decodes to
  -- (rebuilt through the snapshot for the snapshot roads, by re-adding the listing for Display and serde)
  | ["read", k] =>
    if k == "snapshot" || k == "package" || k == "json" then
      (s, "read " ++ JsonProto.levelContent (Level.fromSnapshot s.lvl.snapshot))
    else if k == "display" || k == "serde" then
      (s, "read " ++ JsonProto.levelContent (Level.fromOrders s.lvl.price s.lvl.listing))
    else (s, "read")
  | ["big", _, _] => (s, "big")     -- size probes are judged on the implementation alone (re-encode = encode, nothing lost)
  | ["v5", ns, c] =>
    -- the id (as a 128-bit number) a generator over namespace `ns` returns for counter value `c`
    (match ns.toNat?, c.toNat? with
     | some n, some k => (s, "v5 " ++ toString (Sha1.txId n k))
     | _, _ => bad s line)
  | ["quiet", _] => (s, "quiet")   -- harness-only switch (sparse observation); nothing changes in the model
  | ["state"] => (s, "state " ++ showState s.lvl)
  | [""] => (s, "")
  | _ => bad s line

partial def loop (h : IO.FS.Stream) (out : IO.FS.Stream) (s : DState) : IO Unit := do
  let line ← h.getLine
  if line.isEmpty then return ()
  let (s', o) := step s line
  out.putStrLn o
  loop h out s'

def main : IO Unit := do
  let stdin ← IO.getStdin
  let stdout ← IO.getStdout
  loop stdin stdout {}

/-
  Line-protocol driver (DESIGN §2.4): reads one command per line on stdin, prints one line per
  command. Runs the executable model and evaluates the judge predicates on implementation
  observations. Links natively because nothing below it imports Mathlib.
-/
import PLV.Model.Proto
import PLV.Judge

open PLV PLV.Proto

structure DState where
  lvl : Level := Level.new 0
  g   : Nat := 0
  q   : Q := {}

def bad (s : DState) (line : String) : DState × String := (s, "bad-op " ++ line.trimAscii.toString)

def parseUpdate : List String → Option Update
  | ["price", id, p] => do some (.price (← parseId id) (← p.toNat?))
  | ["qty", id, n] => do some (.quantity (← parseId id) (← n.toNat?))
  | ["pq", id, p, n] => do some (.priceQty (← parseId id) (← p.toNat?) (← n.toNat?))
  | ["cancel", id] => do some (.cancel (← parseId id))
  | ["replace", id, p, n, sd] => do some (.replace (← parseId id) (← p.toNat?) (← n.toNat?) (← parseSide sd))
  | _ => none

def showMA (r : MatchOut) : String :=
  "c=" ++ toString r.consumed ++ " u=" ++ showOptOrder r.updated ++ " hr=" ++ toString r.hiddenRed ++
    " rem=" ++ toString r.remaining

def step (s : DState) (line : String) : DState × String :=
  match line.trimAscii.toString.splitOn " " with
  | ["case", n] => (s, "case " ++ n)
  | ["ma", o, q] =>
    match parseOrder o, q.toNat? with
    | some o, some q => (s, "ma " ++ showMA (matchAgainst o q))
    | _, _ => bad s line
  | ["wr", o, n] =>
    match parseOrder o, n.toNat? with
    | some o, some n => (s, "wr " ++ showOrder (o.withReduced n))
    | _, _ => bad s line
  | ["judge.C05", o, q, c, u, hr, rem] =>
    match parseOrder o, q.toNat?, c.toNat?, parseOptOrder u, hr.toNat?, rem.toNat? with
    | some o, some q, some c, some u, some hr, some rem =>
      let r : MatchOut := ⟨c, u, hr, rem⟩
      (s, if C05.ok o q r && C05.conserves o q r then "J C05 ok" else "J C05 bad rule")
    | _, _, _, _, _, _ => bad s line
  | ["judge.C01", v, h, c, l] =>
    match v.toNat?, h.toNat?, c.toNat?, parseList parseOrder l with
    | some v, some h, some c, some l => (s, if C01.ok v h c l then "J C01 ok" else "J C01 bad aggregates-differ-from-listing")
    | _, _, _, _ => bad s line
  | ["judge.C02", q, taker, price, gprev, txs, rem, complete, filled, pre, post] =>
    match q.toNat?, parseId taker, price.toNat?, gprev.toNat?, parseList parseTx txs, rem.toNat?,
        parseBool complete, parseList parseId filled, parseList parseOrder pre, parseList parseOrder post with
    | some q, some taker, some price, some gprev, some txs, some rem, some complete, some filled, some pre, some post =>
      let o : MatchObs := ⟨q, taker, price, gprev, ⟨taker, txs, rem, complete, filled⟩, pre, post⟩
      (s, if C02.ok o then "J C02 ok" else "J C02 bad accounting")
    | _, _, _, _, _, _, _, _, _, _ => bad s line
  | ["judge.C06", q, txs, rem, pre, post] =>
    match q.toNat?, parseList parseTx txs, rem.toNat?, parseList parseOrder pre, parseList parseOrder post with
    | some q, some txs, some rem, some pre, some post =>
      (s, if C06.ok q ⟨⟨false, 0⟩, txs, rem, rem == 0, []⟩ pre post then "J C06 ok" else "J C06 bad displayed-liquidity-not-exhausted")
    | _, _, _, _, _ => bad s line
  | "judge.C07" :: price :: pre :: post :: out :: upd =>
    let outv : Option UpdOut :=
      if out == "err=SamePrice" then some .errSamePrice
      else if out.startsWith "ok=" then (parseOptOrder (out.drop 3).toString).map UpdOut.ok
      else none
    match price.toNat?, parseList parseOrder pre, parseList parseOrder post, outv, parseUpdate upd with
    | some price, some pre, some post, some out, some u =>
      (s, if C07.ok price u out pre post then "J C07 ok" else "J C07 bad update-semantics")
    | _, _, _, _, _ => bad s line
  | ["judge.C15", price, st, na, nr, se] =>
    match price.toNat?, (st.splitOn ",").mapM String.toNat?, na.toNat?, nr.toNat?, se.toNat? with
    | some price, some [a, r, e, q, v], some na, some nr, some se =>
      (s, if C15.ok price ⟨a, r, e, q, v⟩ na nr se then "J C15 ok" else "J C15 bad statistics-differ-from-events")
    | _, _, _, _, _ => bad s line
  | "atx" :: q :: qs =>
    match q.toNat?, qs.mapM String.toNat? with
    | some q, some qs =>
      let (_, outs) := qs.foldl (fun (acc : MatchResult × List String) n =>
        let r := acc.1.addTx ⟨0, ⟨false, 0⟩, ⟨false, 0⟩, 0, n, .buy⟩
        (r, acc.2 ++ [toString r.remaining ++ ":" ++ showBool r.complete])) (MatchResult.new ⟨false, 0⟩ q, [])
      (s, "atx " ++ joinWith " " outs)
    | _, _ => bad s line
  | ["new", p] =>
    match p.toNat? with
    | some p => ({ s with lvl := Level.new p, g := 0 }, "new")
    | none => bad s line
  | ["add", o] =>
    match parseOrder o with
    | some o => ({ s with lvl := s.lvl.addOrder o }, "add ret=" ++ showOrder o)
    | none => bad s line
  | ["match", q, taker] =>
    match q.toNat?, parseId taker with
    | some q, some t =>
      let (l, r, g) := s.lvl.matchOrder q t s.g
      ({ s with lvl := l, g := g }, "match " ++ showMatch r)
    | _, _ => bad s line
  | "upd" :: rest =>
    match parseUpdate rest with
    | some u =>
      let (l, out) := s.lvl.update u
      ({ s with lvl := l }, "upd " ++ showUpd out)
    | none => bad s line
  | ["read", _] => (s, "read")
  | ["state"] => (s, "state " ++ showState s.lvl)
  | [""] => (s, "")
  | _ => bad s line

partial def loop (h : IO.FS.Stream) (out : IO.FS.Stream) (s : DState) : IO Unit := do
  let line ← h.getLine
  if line.isEmpty then return ()
  let (s', o) := step s line
  out.putStrLn o
  loop h out s'

def main : IO Unit := do
  let stdin ← IO.getStdin
  let stdout ← IO.getStdout
  loop stdin stdout {}
